(* POSTED-RECEIVE interleaving semantics of per-rank programs (named-source fragment) and its confluence theorem.

   Why a second semantics.  A `prog` lists the communication actions of a rank in the order in which the C code
   POSTS them.  MPI/Sem.v reads every `Recv` as a BLOCKING receive: the rank does nothing until the message has
   arrived.  That is the right reading of MPI_Recv, but not of a communication window made of MPI_Irecv /
   MPI_Isend requests that are completed later by MPI_Waitall (sc_reduce_alltoall in src/sc_reduce.c posts
   Irecv(peer_0); Isend(peer_0); Irecv(peer_1); Isend(peer_1); ... then Waitall on the receives, then computes,
   then Waitall on the sends).  A posted Irecv does not hold back the requests posted after it; its payload is
   handed to the computation at the completion call.  Read with blocking receives such a window deadlocks as soon
   as two ranks exchange messages (both start with the receive); the C code does not.

   The semantics `step_p` below keeps the state space of Sem.v (one program per rank, buffered sends, FIFO
   channels per (source, destination, tag)) and lets a rank do one of two things:

   (S) ISSUE THE NEXT SEND.  If the program is  Recv_1; ...; Recv_n; Send d t m; rest  (n >= 0), where neither
       d, t, m nor the fact that a send comes next depend on the replies of Recv_1 .. Recv_n (`canS`), the message is
       appended to channel (r, d, t) and the send is removed from the program (`strip_send`); the n receives stay
       where they are: they have been posted and are still pending.  With n = 0 this is the send step of Sem.v.
       Sends are never moved across sends or collectives, so a rank's messages enter its channels in posting
       order (MPI's non-overtaking rule).  A send whose payload, destination or tag DEPENDS on the reply of a
       pending receive can not be issued (that is what `canS` demands: the same d, t, m for every reply), so a
       blocking receive followed by a send of what was received still blocks.
   (R) COMPLETE A POSTED RECEIVE.  If the program is  Recv_1; ...; Recv_n; Recv src t; rest  (n >= 0) with all of
       Recv_1 .. Recv_n from named sources and for keys different from (src, t) (`canR`), and channel (src, r, t) holds a message m at its
       head, the message is taken and the reply src :: m is substituted into the program (`strip_recv`); the
       receives in front stay pending.  With n = 0 this is the receive step of Sem.v.  Two receives for the
       same (source, tag) are completed in posting order (MPI matches them in that order); a receive is not
       moved across a send or a collective: it has not been posted before the send in front of it has been issued.

   So a window  Irecv a; Isend a; Irecv b; Isend b; Waitall  may issue both sends at once and complete the two
   receives in either order, as the messages arrive - every behaviour MPI allows for it - while the continuation
   of the program (what C does after Waitall) runs only when all receives in front of it are complete, because it
   is the innermost continuation.  Every step of Sem.v is a step of step_p (`step_in_step_p`); so the posted
   semantics has MORE schedules, and a statement about all of its schedules covers those of Sem.v.

   Results: commutation of the two removals (`comm_SR`, `comm_RR`), the diamond property `diamond_p` (two different
   steps from one state - of two ranks or of one rank - can be completed to a common state in one step each),
   `confluence_p`, `same_final_p`, `never_stuck_p`, and `one_schedule_all_schedules_p`: ONE terminating schedule
   (of step_p, in particular one of Sem.v) implies that EVERY schedule of step_p terminates in the same final
   state after the same number of steps and that no reachable state is stuck.
   Uses functional extensionality (Coq standard library axiom), like Sem.v. *)
From Coq Require Import ZArith Lia List Bool FunctionalExtensionality.
From ScV Require Import MPI.Prog MPI.Sem.
Import ListNotations.
Local Open Scope Z_scope.

(* ---- removing the next send / a posted receive from a program -------------------------------------------- *)
Fixpoint strip_send (p : prog) : prog :=
  match p with
  | Do (Send _ _ _) k => k []
  | Do (Recv s t) k => Do (Recv s t) (fun v => strip_send (k v))
  | _ => p
  end.

Definition keq (s t src tg : Z) : bool := (s =? src) && (t =? tg).

Fixpoint strip_recv (src tg : Z) (v : payload) (p : prog) : prog :=
  match p with
  | Do (Recv s t) k => if keq s t src tg then k v else Do (Recv s t) (fun u => strip_recv src tg v (k u))
  | _ => p
  end.

(* the next send is (d, t, m) whatever the pending receives in front of it deliver *)
Inductive canS : prog -> Z -> Z -> payload -> Prop :=
| canS_here d t m k : canS (Do (Send d t m) k) d t m
| canS_skip s tg k d t m : (forall v, canS (k v) d t m) -> canS (Do (Recv s tg) k) d t m.

(* a receive for (src, tg) is posted, behind pending receives from NAMED sources for other keys only (a pending
   wildcard receive could match the same message: nothing is completed across it) *)
Inductive canR : prog -> Z -> Z -> Prop :=
| canR_here src tg k : canR (Do (Recv src tg) k) src tg
| canR_skip s t k src tg : 0 <= s -> keq s t src tg = false -> (forall v, canR (k v) src tg) -> canR (Do (Recv s t) k) src tg.

Inductive step_p : gs -> Z -> gs -> Prop :=
| sp_send s r d t m :
    canS (pr s r) d t m ->
    step_p s r (mkgs (updp (pr s) r (strip_send (pr s r))) (updc (ch s) r d t (ch s r d t ++ [m])))
| sp_recv s r src t m q :
    0 <= src -> canR (pr s r) src t -> ch s src r t = m :: q ->
    step_p s r (mkgs (updp (pr s) r (strip_recv src t (src :: m) (pr s r))) (updc (ch s) src r t q)).

(* every step of the blocking semantics is a step of the posted semantics *)
Lemma keq_refl s t : keq s t s t = true.
Proof. unfold keq. rewrite !Z.eqb_refl. reflexivity. Qed.

Lemma step_in_step_p s r s' : step s r s' -> step_p s r s'.
Proof.
  intros H. inversion H as [? ? d t m k Hp|? ? src t k m q Hsrc Hp Hc]; subst.
  - replace (k []) with (strip_send (pr s r)) by (rewrite Hp; reflexivity).
    apply sp_send. rewrite Hp. apply canS_here.
  - replace (k (src :: m)) with (strip_recv src t (src :: m) (pr s r)) by (rewrite Hp; cbn [strip_recv]; rewrite keq_refl; reflexivity).
    apply sp_recv; [exact Hsrc| |exact Hc]. rewrite Hp. apply canR_here.
Qed.

(* ---- inversion ------------------------------------------------------------------------------------------- *)
Lemma canS_inv_recv s0 t0 k d t m : canS (Do (Recv s0 t0) k) d t m -> forall v, canS (k v) d t m.
Proof. intros H. inversion H; subst. assumption. Qed.
Lemma canS_inv_send d0 t0 m0 k d t m : canS (Do (Send d0 t0 m0) k) d t m -> d0 = d /\ t0 = t /\ m0 = m.
Proof. intros H. inversion H; subst. auto. Qed.
Lemma canR_inv s0 t0 k src tg : canR (Do (Recv s0 t0) k) src tg ->
  keq s0 t0 src tg = true \/ (0 <= s0 /\ keq s0 t0 src tg = false /\ forall v, canR (k v) src tg).
Proof. intros H. inversion H; subst; [left; apply keq_refl|right; repeat split; assumption]. Qed.

(* the send a rank can issue is determined by its program *)
Lemma canS_det p : forall d t m d' t' m', canS p d t m -> canS p d' t' m' -> d = d' /\ t = t' /\ m = m'.
Proof.
  induction p as [o|a k IH]; intros d t m d' t' m' H1 H2; [inversion H1|].
  destruct a as [d0 t0 m0|s0 t0|c r0 x]; [| |inversion H1].
  - apply canS_inv_send in H1. apply canS_inv_send in H2. destruct H1 as [? [? ?]], H2 as [? [? ?]]. subst. auto.
  - apply (IH []); [exact (canS_inv_recv _ _ _ _ _ _ H1 [])|exact (canS_inv_recv _ _ _ _ _ _ H2 [])].
Qed.

(* a send whose message depends on the reply of the receive in front of it can not be issued early *)
Lemma canS_needs_independence s0 t0 (D T : payload -> Z) (F : payload -> payload) K d t m :
  canS (Do (Recv s0 t0) (fun v => Do (Send (D v) (T v) (F v)) (K v))) d t m -> forall v, D v = d /\ T v = t /\ F v = m.
Proof. intros H v. apply (canS_inv_send _ _ _ (K v)). exact (canS_inv_recv _ _ _ _ _ _ H v). Qed.

(* ---- the removals commute -------------------------------------------------------------------------------- *)
Lemma comm_SR p : forall d t m src tg v, canS p d t m -> canR p src tg ->
  canS (strip_recv src tg v p) d t m /\ canR (strip_send p) src tg /\
  strip_recv src tg v (strip_send p) = strip_send (strip_recv src tg v p).
Proof.
  induction p as [o|a k IH]; intros d t m src tg v HS HR; [inversion HS|].
  destruct a as [d0 t0 m0|s0 t0|c r0 x]; [inversion HR| |inversion HS].
  pose proof (canS_inv_recv _ _ _ _ _ _ HS) as HSk.
  cbn [strip_send strip_recv].
  destruct (canR_inv _ _ _ _ _ HR) as [E|[N0 [E HRk]]]; rewrite E.
  - split; [apply HSk|]. unfold keq in E. assert (s0 = src /\ t0 = tg) as [-> ->] by lia.
    split; [apply canR_here|reflexivity].
  - split; [|split].
    + apply canS_skip. intros u. apply (IH u); [apply HSk|apply HRk].
    + apply canR_skip; [exact N0|exact E|]. intros u. apply (IH u d t m src tg v); [apply HSk|apply HRk].
    + cbn [strip_send]. f_equal. extensionality u. apply (IH u d t m); [apply HSk|apply HRk].
Qed.

Lemma comm_RR p : forall s1 t1 v1 s2 t2 v2, keq s1 t1 s2 t2 = false -> canR p s1 t1 -> canR p s2 t2 ->
  canR (strip_recv s2 t2 v2 p) s1 t1 /\ canR (strip_recv s1 t1 v1 p) s2 t2 /\
  strip_recv s1 t1 v1 (strip_recv s2 t2 v2 p) = strip_recv s2 t2 v2 (strip_recv s1 t1 v1 p).
Proof.
  induction p as [o|a k IH]; intros s1 t1 v1 s2 t2 v2 Hne H1 H2; [inversion H1|].
  destruct a as [d0 t0 m0|s0 t0|c r0 x]; [inversion H1| |inversion H1].
  cbn [strip_recv].
  destruct (canR_inv _ _ _ _ _ H1) as [E1|[N0 [E1 K1]]]; destruct (canR_inv _ _ _ _ _ H2) as [E2|[N0' [E2 K2]]]; rewrite ?E1, ?E2.
  - exfalso. unfold keq in *. lia.
  - assert (s0 = s1 /\ t0 = t1) as [-> ->] by (unfold keq in E1; lia).
    split; [apply canR_here|]. split; [apply K2|]. cbn [strip_recv]. rewrite keq_refl. reflexivity.
  - assert (s0 = s2 /\ t0 = t2) as [-> ->] by (unfold keq in E2; lia).
    split; [apply K1|]. split; [apply canR_here|]. cbn [strip_recv]. rewrite keq_refl. reflexivity.
  - split; [|split].
    + apply canR_skip; [exact N0|exact E1|]. intros u. apply (IH u s1 t1 v1 s2 t2 v2 Hne); [apply K1|apply K2].
    + apply canR_skip; [exact N0|exact E2|]. intros u. apply (IH u s1 t1 v1 s2 t2 v2 Hne); [apply K1|apply K2].
    + cbn [strip_recv]. rewrite E1, E2. f_equal. extensionality u. apply (IH u); [exact Hne|apply K1|apply K2].
Qed.

(* ---- building steps from pointwise descriptions of the target state -------------------------------------- *)
Lemma sp_send' s r d t m s' : canS (pr s r) d t m ->
  (forall x, pr s' x = updp (pr s) r (strip_send (pr s r)) x) ->
  (forall a b t', ch s' a b t' = updc (ch s) r d t (ch s r d t ++ [m]) a b t') -> step_p s r s'.
Proof.
  intros H Hp Hc.
  replace s' with (mkgs (updp (pr s) r (strip_send (pr s r))) (updc (ch s) r d t (ch s r d t ++ [m])))
    by (symmetry; apply gs_eq; assumption).
  apply sp_send. exact H.
Qed.
Lemma sp_recv' s r src t m q s' : 0 <= src -> canR (pr s r) src t -> ch s src r t = m :: q ->
  (forall x, pr s' x = updp (pr s) r (strip_recv src t (src :: m) (pr s r)) x) ->
  (forall a b t', ch s' a b t' = updc (ch s) src r t q a b t') -> step_p s r s'.
Proof.
  intros H0 H Hq Hp Hc.
  replace s' with (mkgs (updp (pr s) r (strip_recv src t (src :: m) (pr s r))) (updc (ch s) src r t q))
    by (symmetry; apply gs_eq; assumption).
  apply sp_recv; assumption.
Qed.

Ltac prog_cases r1 r2 :=
  let x := fresh "x" in let E1 := fresh "E" in let E2 := fresh "E" in
  intros x; cbn [pr]; unfold updp; destruct (x =? r1) eqn:E1; destruct (x =? r2) eqn:E2; try reflexivity; try lia.

(* ---- two steps of different ranks commute ----------------------------------------------------------------- *)
Lemma diamond_diff s r1 s1 r2 s2 : r1 <> r2 -> step_p s r1 s1 -> step_p s r2 s2 ->
  exists s3, step_p s1 r2 s3 /\ step_p s2 r1 s3.
Proof.
  intros Hne H1 H2. inversion H1 as [? ? d1 t1 m1 C1|? ? src1 t1 m1 q1 S1 C1 Q1]; subst;
    inversion H2 as [? ? d2 t2 m2 C2|? ? src2 t2 m2 q2 S2 C2 Q2]; subst.
  - (* send / send *)
    exists (mkgs (updp (updp (pr s) r1 (strip_send (pr s r1))) r2 (strip_send (pr s r2)))
                 (updc (updc (ch s) r1 d1 t1 (ch s r1 d1 t1 ++ [m1])) r2 d2 t2 (ch s r2 d2 t2 ++ [m2]))).
    split.
    + apply sp_send' with (d := d2) (t := t2) (m := m2); cbn [pr ch]; rewrite ?(updp_other _ r1 _ r2) by lia.
      * exact C2.
      * reflexivity.
      * intros a b t. rewrite (updc_other _ r1 d1 t1 _ r2 d2 t2) by (intros E; injection E; lia). reflexivity.
    + apply sp_send' with (d := d1) (t := t1) (m := m1); cbn [pr ch]; rewrite ?(updp_other _ r2 _ r1) by lia.
      * exact C1.
      * prog_cases r1 r2.
      * intros a b t. rewrite (updc_other _ r2 d2 t2 _ r1 d1 t1) by (intros E; injection E; lia).
        chan_cases; try reflexivity; lia.
  - (* send by r1 / recv by r2 *)
    exists (mkgs (updp (updp (pr s) r1 (strip_send (pr s r1))) r2 (strip_recv src2 t2 (src2 :: m2) (pr s r2)))
                 (updc (updc (ch s) r1 d1 t1 (ch s r1 d1 t1 ++ [m1])) src2 r2 t2
                       (if (src2 =? r1) && (r2 =? d1) && (t2 =? t1) then q2 ++ [m1] else q2))).
    split.
    + apply sp_recv' with (src := src2) (t := t2) (m := m2)
                          (q := if (src2 =? r1) && (r2 =? d1) && (t2 =? t1) then q2 ++ [m1] else q2);
        cbn [pr ch]; rewrite ?(updp_other _ r1 _ r2) by lia.
      * exact S2.
      * exact C2.
      * unfold updc at 1. destruct ((src2 =? r1) && (r2 =? d1) && (t2 =? t1)) eqn:E.
        -- assert (src2 = r1 /\ r2 = d1 /\ t2 = t1) as [-> [-> ->]] by lia. rewrite Q2. reflexivity.
        -- exact Q2.
      * reflexivity.
      * reflexivity.
    + apply sp_send' with (d := d1) (t := t1) (m := m1); cbn [pr ch]; rewrite ?(updp_other _ r2 _ r1) by lia.
      * exact C1.
      * prog_cases r1 r2.
      * intros a b t. chan_cases; try reflexivity; try lia.
        all: try (assert (src2 = r1 /\ r2 = d1 /\ t2 = t1) as [? [? ?]] by lia; subst; rewrite Q2; reflexivity).
  - (* recv by r1 / send by r2 *)
    exists (mkgs (updp (updp (pr s) r2 (strip_send (pr s r2))) r1 (strip_recv src1 t1 (src1 :: m1) (pr s r1)))
                 (updc (updc (ch s) r2 d2 t2 (ch s r2 d2 t2 ++ [m2])) src1 r1 t1
                       (if (src1 =? r2) && (r1 =? d2) && (t1 =? t2) then q1 ++ [m2] else q1))).
    split.
    + apply sp_send' with (d := d2) (t := t2) (m := m2); cbn [pr ch]; rewrite ?(updp_other _ r1 _ r2) by lia.
      * exact C2.
      * prog_cases r1 r2.
      * intros a b t. chan_cases; try reflexivity; try lia.
        all: try (assert (src1 = r2 /\ r1 = d2 /\ t1 = t2) as [? [? ?]] by lia; subst; rewrite Q1; reflexivity).
    + apply sp_recv' with (src := src1) (t := t1) (m := m1)
                          (q := if (src1 =? r2) && (r1 =? d2) && (t1 =? t2) then q1 ++ [m2] else q1);
        cbn [pr ch]; rewrite ?(updp_other _ r2 _ r1) by lia.
      * exact S1.
      * exact C1.
      * unfold updc at 1. destruct ((src1 =? r2) && (r1 =? d2) && (t1 =? t2)) eqn:E.
        -- assert (src1 = r2 /\ r1 = d2 /\ t1 = t2) as [-> [-> ->]] by lia. rewrite Q1. reflexivity.
        -- exact Q1.
      * reflexivity.
      * reflexivity.
  - (* recv / recv: different destinations, different channels *)
    exists (mkgs (updp (updp (pr s) r1 (strip_recv src1 t1 (src1 :: m1) (pr s r1))) r2 (strip_recv src2 t2 (src2 :: m2) (pr s r2)))
                 (updc (updc (ch s) src1 r1 t1 q1) src2 r2 t2 q2)).
    split.
    + apply sp_recv' with (src := src2) (t := t2) (m := m2) (q := q2); cbn [pr ch]; rewrite ?(updp_other _ r1 _ r2) by lia.
      * exact S2.
      * exact C2.
      * rewrite updc_other by (intros E; injection E; lia). exact Q2.
      * reflexivity.
      * reflexivity.
    + apply sp_recv' with (src := src1) (t := t1) (m := m1) (q := q1); cbn [pr ch]; rewrite ?(updp_other _ r2 _ r1) by lia.
      * exact S1.
      * exact C1.
      * rewrite updc_other by (intros E; injection E; lia). exact Q1.
      * prog_cases r1 r2.
      * intros a b t. chan_cases; try reflexivity; lia.
Qed.

(* ---- two different steps of the same rank commute --------------------------------------------------------- *)
Lemma same_SR s r d t m src tg m0 q : canS (pr s r) d t m -> 0 <= src -> canR (pr s r) src tg -> ch s src r tg = m0 :: q ->
  exists s3,
    step_p (mkgs (updp (pr s) r (strip_send (pr s r))) (updc (ch s) r d t (ch s r d t ++ [m]))) r s3 /\
    step_p (mkgs (updp (pr s) r (strip_recv src tg (src :: m0) (pr s r))) (updc (ch s) src r tg q)) r s3.
Proof.
  intros CS S0 CR Q.
  destruct (comm_SR (pr s r) d t m src tg (src :: m0) CS CR) as [CS' [CR' Ecomm]].
  exists (mkgs (updp (pr s) r (strip_send (strip_recv src tg (src :: m0) (pr s r))))
               (updc (updc (ch s) r d t (ch s r d t ++ [m])) src r tg
                     (if (src =? r) && (r =? d) && (tg =? t) then q ++ [m] else q))).
  split.
  - apply sp_recv' with (src := src) (t := tg) (m := m0) (q := if (src =? r) && (r =? d) && (tg =? t) then q ++ [m] else q);
      cbn [pr ch]; rewrite ?updp_same.
    + exact S0.
    + exact CR'.
    + unfold updc at 1. destruct ((src =? r) && (r =? d) && (tg =? t)) eqn:E.
      * assert (src = r /\ r = d /\ tg = t) as [-> [<- ->]] by lia. rewrite Q. reflexivity.
      * exact Q.
    + intros x. unfold updp. destruct (x =? r); [symmetry; exact Ecomm|reflexivity].
    + reflexivity.
  - apply sp_send' with (d := d) (t := t) (m := m); cbn [pr ch]; rewrite ?updp_same.
    + exact CS'.
    + intros x. unfold updp. destruct (x =? r); reflexivity.
    + intros a b t'. chan_cases; try reflexivity; try lia.
      all: try (assert (src = r /\ r = d /\ tg = t) as [? [? ?]] by lia; subst; rewrite Q; reflexivity).
Qed.

Lemma diamond_same s r s1 s2 : step_p s r s1 -> step_p s r s2 -> s1 = s2 \/ exists s3, step_p s1 r s3 /\ step_p s2 r s3.
Proof.
  intros H1 H2. inversion H1 as [? ? d1 t1 m1 C1|? ? src1 t1 m1 q1 S1 C1 Q1]; subst;
    inversion H2 as [? ? d2 t2 m2 C2|? ? src2 t2 m2 q2 S2 C2 Q2]; subst.
  - left. destruct (canS_det _ _ _ _ _ _ _ C1 C2) as [-> [-> ->]]. reflexivity.
  - right. exact (same_SR s r d1 t1 m1 src2 t2 m2 q2 C1 S2 C2 Q2).
  - right. destruct (same_SR s r d2 t2 m2 src1 t1 m1 q1 C2 S1 C1 Q1) as [s3 [Ha Hb]]. exists s3. split; assumption.
  - destruct (keq src1 t1 src2 t2) eqn:E.
    + left. assert (src1 = src2 /\ t1 = t2) as [-> ->] by (unfold keq in E; lia).
      rewrite Q1 in Q2. injection Q2 as -> ->. reflexivity.
    + right.
      destruct (comm_RR (pr s r) src1 t1 (src1 :: m1) src2 t2 (src2 :: m2) E C1 C2) as [C1' [C2' Ecomm]].
      exists (mkgs (updp (pr s) r (strip_recv src2 t2 (src2 :: m2) (strip_recv src1 t1 (src1 :: m1) (pr s r))))
                   (updc (updc (ch s) src1 r t1 q1) src2 r t2 q2)).
      unfold keq in E. split.
      * apply sp_recv' with (src := src2) (t := t2) (m := m2) (q := q2); cbn [pr ch]; rewrite ?updp_same.
        -- exact S2.
        -- exact C2'.
        -- rewrite updc_other by (intros X; injection X; lia). exact Q2.
        -- intros x. unfold updp. destruct (x =? r); reflexivity.
        -- reflexivity.
      * apply sp_recv' with (src := src1) (t := t1) (m := m1) (q := q1); cbn [pr ch]; rewrite ?updp_same.
        -- exact S1.
        -- exact C1'.
        -- rewrite updc_other by (intros X; injection X; lia). exact Q1.
        -- intros x. unfold updp. destruct (x =? r); [symmetry; exact Ecomm|reflexivity].
        -- intros a b t. chan_cases; try reflexivity; lia.
Qed.

(* DIAMOND: two steps from one state lead to the same state or can be joined in one step each *)
Lemma diamond_p s r1 s1 r2 s2 : step_p s r1 s1 -> step_p s r2 s2 ->
  s1 = s2 \/ exists s3, step_p s1 r2 s3 /\ step_p s2 r1 s3.
Proof.
  intros H1 H2. destruct (Z.eq_dec r1 r2) as [->|Hne].
  - apply (diamond_same s r2); assumption.
  - right. apply (diamond_diff s r1 s1 r2 s2); assumption.
Qed.

(* ---- runs -------------------------------------------------------------------------------------------------- *)
Inductive run_p : nat -> gs -> gs -> Prop :=
| runp_nil s : run_p 0 s s
| runp_cons n s r s1 s2 : step_p s r s1 -> run_p n s1 s2 -> run_p (S n) s s2.

Lemma run_in_run_p n s s' : run n s s' -> run_p n s s'.
Proof. induction 1; [apply runp_nil|]. econstructor; [apply step_in_step_p; eassumption|assumption]. Qed.

Lemma final_no_step_p s r s' : final s -> step_p s r s' -> False.
Proof.
  intros Hf Hs. destruct (Hf r) as [out Ho].
  inversion Hs as [? ? d t m C|? ? src t m q S0 C Q]; subst; rewrite Ho in C; inversion C.
Qed.

Lemma run_p_app n1 n2 s1 s2 s3 : run_p n1 s1 s2 -> run_p n2 s2 s3 -> run_p (n1 + n2) s1 s3.
Proof. induction 1; simpl; [auto|]. intros. econstructor; eauto. Qed.

Lemma catch_up_p : forall n s f, run_p n s f -> final f -> forall r s1, step_p s r s1 ->
  exists n', n = S n' /\ run_p n' s1 f.
Proof.
  induction n as [|n IH]; intros s f Hrun Hfin r s1 Hstep.
  - inversion Hrun; subst. exfalso. eapply final_no_step_p; eauto.
  - inversion Hrun as [|? ? r0 s0 ? Hs0 Hrest]; subst. exists n. split; [reflexivity|].
    destruct (diamond_p s r0 s0 r s1 Hs0 Hstep) as [<-|[s3 [H03 H13]]]; [exact Hrest|].
    destruct (IH s0 f Hrest Hfin r s3 H03) as [n' [-> Hr3]].
    econstructor; eauto.
Qed.

(* CONFLUENCE: if one schedule reaches a final state f in n steps, then every run of m steps from the same
   state has m <= n and can be completed to f in exactly n - m further steps. *)
Theorem confluence_p : forall m n s f s', run_p n s f -> final f -> run_p m s s' ->
  (m <= n)%nat /\ run_p (n - m) s' f.
Proof.
  induction m as [|m IH]; intros n s f s' Hn Hf Hm.
  - inversion Hm; subst. split; [lia|]. rewrite Nat.sub_0_r. exact Hn.
  - inversion Hm as [|? ? r s1 ? Hs Hrest]; subst.
    destruct (catch_up_p n s f Hn Hf r s1 Hs) as [n' [-> Hn']].
    destruct (IH n' s1 f s' Hn' Hf Hrest) as [Hle Hr]. split; [lia|exact Hr].
Qed.

Corollary same_final_p n s f m f' : run_p n s f -> final f -> run_p m s f' -> final f' -> f' = f /\ m = n.
Proof.
  intros Hn Hf Hm Hf'. destruct (confluence_p m n s f f' Hn Hf Hm) as [Hle Hr].
  inversion Hr as [|k ? r s1 ? Hs Hrest Hk]; subst.
  - split; [reflexivity|lia].
  - exfalso. eapply final_no_step_p; eauto.
Qed.

Corollary never_stuck_p n s f m s' : run_p n s f -> final f -> run_p m s s' -> final s' \/ exists r s'', step_p s' r s''.
Proof.
  intros Hn Hf Hm. destruct (confluence_p m n s f s' Hn Hf Hm) as [Hle Hr].
  inversion Hr; subst; [left; assumption|right; eauto].
Qed.

(* ---- what ONE terminating schedule gives for ALL schedules of the posted semantics ----------------------- *)
Definition terminal_for_p (s0 f : gs) (n : nat) : Prop :=
  forall m s', run_p m s0 s' ->
    (m <= n)%nat /\ run_p (n - m) s' f /\                     (* every partial schedule is completed to f in n - m steps *)
    (final s' -> s' = f /\ m = n) /\                          (* every complete schedule ends in f *)
    (final s' \/ exists r s'', step_p s' r s'').              (* no reachable state is stuck *)

Lemma one_schedule_all_schedules_p s0 f n : run_p n s0 f -> final f -> terminal_for_p s0 f n.
Proof.
  intros Hrun Hfin m s' Hm.
  destruct (confluence_p m n s0 f s' Hrun Hfin Hm) as [Hle Hr].
  split; [exact Hle|]. split; [exact Hr|]. split.
  - intros Hf'. exact (same_final_p n s0 f m s' Hrun Hfin Hm Hf').
  - exact (never_stuck_p n s0 f m s' Hrun Hfin Hm).
Qed.

(* a terminating schedule of the BLOCKING semantics (Sem.v) is one of the posted semantics: the every-schedule
   theorems proved with Sem.v's confluence carry over to the larger set of schedules *)
Corollary blocking_schedule_all_posted_schedules s0 f n : run n s0 f -> final f -> terminal_for_p s0 f n.
Proof. intros Hrun Hfin. apply one_schedule_all_schedules_p; [apply run_in_run_p; exact Hrun|exact Hfin]. Qed.
