(* Per-rank programs of the message-passing algorithms in "free monad" form.
   A program issues communication actions in the order in which the C code POSTS them; the reply to a
   receive is the payload that the matching message carried (delivered at the completion call in C).
   The same type is (a) extracted and co-simulated against the per-rank traces of the real code running on
   the simulated MPI, and (b) given an interleaving semantics in MPI/Sem.v. *)
From Coq Require Import ZArith List Bool.
Import ListNotations.
Local Open Scope Z_scope.

Definition payload := list Z.          (* bytes, or ints for integer messages *)
Definition ANY : Z := -1.              (* wildcard source *)

Inductive act :=
| Send (dest tag : Z) (m : payload)            (* MPI_Send / Isend / Issend *)
| Recv (src tag : Z)                           (* MPI_Recv / Irecv / Probe+Recv; src = ANY for a wildcard;
                                                  the reply is the matched source followed by the payload *)
| Coll (kind : Z) (root : Z) (contrib : payload).   (* collective: reply is the result this rank obtains *)

Inductive prog :=
| Ret (out : payload)
| Do (a : act) (k : payload -> prog).

(* sequencing helpers *)
Definition send (d t : Z) (m : payload) (k : prog) : prog := Do (Send d t m) (fun _ => k).
Definition recv (s t : Z) (k : payload -> prog) : prog := Do (Recv s t) (fun r => k (tl r)).
Definition recv_any (t : Z) (k : Z -> payload -> prog) : prog := Do (Recv ANY t) (fun r => k (hd 0 r) (tl r)).

(* buffers of equally sized blocks *)
Definition buffer := Z -> payload.
Definition upd (b : buffer) (i : Z) (v : payload) : buffer := fun j => if j =? i then v else b j.
Fixpoint slots (b : buffer) (lo : Z) (n : nat) : payload :=
  match n with O => [] | S k => b lo ++ slots b (lo + 1) k end.
(* store a payload of n blocks of size sz into consecutive slots *)
Fixpoint store (b : buffer) (lo : Z) (n : nat) (sz : nat) (m : payload) : buffer :=
  match n with O => b | S k => store (upd b lo (firstn sz m)) (lo + 1) k sz (skipn sz m) end.

(* one communication window: all sends of the window, then its receives (the C code posts them in some order
   and completes them together with Waitall; buffers are not touched in between) *)
Fixpoint do_sends (l : list (Z * Z * payload)) (k : prog) : prog :=
  match l with [] => k | (d, t, m) :: r => send d t m (do_sends r k) end.
Fixpoint do_recvs (l : list (Z * Z)) (acc : list payload) (k : list payload -> prog) : prog :=
  match l with [] => k (rev acc) | (s, t) :: r => recv s t (fun m => do_recvs r (m :: acc) k) end.
Definition phase (S : list (Z * Z * payload)) (R : list (Z * Z)) (k : list payload -> prog) : prog :=
  do_sends S (do_recvs R [] k).
