(* Interleaving semantics of per-rank programs WITH wildcard receives.
   Sem.v covers sends and receives from a NAMED source (its confluence theorem is false once a receive may match
   several sources).  Here the step relation gets a third rule: a rank whose next action is `Recv ANY t` may take
   the head of ANY non-empty channel (src, r, t); the reply is src :: payload.  Channels stay FIFO per
   (source, destination, tag) - MPI's non-overtaking rule - and sends stay buffered (eager).  A collective has no
   rule (a rank that issues one never moves again).
   The file also contains an EXECUTABLE one-step function `exec_step` (a choice = the rank that moves and, for a
   wildcard receive, the source it matches), proved sound for the relation, and schedule runners built on it. *)
From Coq Require Import ZArith Lia List Bool.
From ScV Require Import MPI.Prog MPI.Sem.
Import ListNotations.
Local Open Scope Z_scope.

Inductive step_a : gs -> Z -> gs -> Prop :=
| stepa_send s r d t m k :
    pr s r = Do (Send d t m) k ->
    step_a s r (mkgs (updp (pr s) r (k [])) (updc (ch s) r d t (ch s r d t ++ [m])))
| stepa_recv s r src t k m q :
    0 <= src -> pr s r = Do (Recv src t) k -> ch s src r t = m :: q ->
    step_a s r (mkgs (updp (pr s) r (k (src :: m))) (updc (ch s) src r t q))
| stepa_any s r src t k m q :
    pr s r = Do (Recv ANY t) k -> ch s src r t = m :: q ->
    step_a s r (mkgs (updp (pr s) r (k (src :: m))) (updc (ch s) src r t q)).

(* EMBEDDING: every step of the named-source semantics is a step here *)
Lemma step_in_step_a s r s' : step s r s' -> step_a s r s'.
Proof. intros H. inversion H; subst; [apply stepa_send|apply stepa_recv]; assumption. Qed.

Inductive run_a : nat -> gs -> gs -> Prop :=
| runa_nil s : run_a 0 s s
| runa_cons n s r s1 s2 : step_a s r s1 -> run_a n s1 s2 -> run_a (S n) s s2.

Lemma run_in_run_a n s s' : run n s s' -> run_a n s s'.
Proof. induction 1; econstructor; eauto using step_in_step_a. Qed.

Lemma run_a_app n1 n2 s1 s2 s3 : run_a n1 s1 s2 -> run_a n2 s2 s3 -> run_a (n1 + n2) s1 s3.
Proof. induction 1; simpl; [auto|]. intros. econstructor; eauto. Qed.

Lemma run_a_snoc n s1 s2 r s3 : run_a n s1 s2 -> step_a s2 r s3 -> run_a (S n) s1 s3.
Proof.
  intros H1 H2. replace (S n) with (n + 1)%nat by lia. eapply run_a_app; [exact H1|]. econstructor; [exact H2|constructor].
Qed.

(* `final` is Sem.final: every rank has returned *)
Definition can_step (s : gs) : Prop := exists r s', step_a s r s'.
Definition stuck (s : gs) : Prop := ~ final s /\ ~ can_step s.

Lemma final_no_step_a s r s' : final s -> step_a s r s' -> False.
Proof. intros Hf Hs. destruct (Hf r) as [out Ho]. inversion Hs; subst; congruence. Qed.

(* a run cannot be extended beyond a final state *)
Lemma final_run_a n s s' : final s -> run_a n s s' -> n = 0%nat /\ s' = s.
Proof. intros Hf Hr. inversion Hr; subst; [auto|]. exfalso. eapply final_no_step_a; eauto. Qed.

(* ---- executable steps --------------------------------------------------------------------------------------
   choice (r, src): rank r moves; src is used only when r's next action is a wildcard receive *)
Definition choice := (Z * Z)%type.

Definition take (s : gs) (r src t : Z) (k : payload -> prog) : option gs :=
  match ch s src r t with
  | m :: q => Some (mkgs (updp (pr s) r (k (src :: m))) (updc (ch s) src r t q))
  | [] => None
  end.

Definition exec_step (s : gs) (c : choice) : option gs :=
  let '(r, src) := c in
  match pr s r with
  | Do (Send d t m) k => Some (mkgs (updp (pr s) r (k [])) (updc (ch s) r d t (ch s r d t ++ [m])))
  | Do (Recv x t) k => if x =? ANY then take s r src t k else if 0 <=? x then take s r x t k else None
  | _ => None
  end.

Fixpoint exec (l : list choice) (s : gs) : option gs :=
  match l with
  | [] => Some s
  | c :: l' => match exec_step s c with Some s1 => exec l' s1 | None => None end
  end.

(* SOUNDNESS of the executable scheduler: every executed choice is a step of the relation *)
Lemma exec_step_sound s c s' : exec_step s c = Some s' -> step_a s (fst c) s'.
Proof.
  destruct c as [r src]. unfold exec_step. cbn [fst].
  destruct (pr s r) as [o|[d t m|x t|kd rt cb] k] eqn:E; try discriminate.
  - intros H. injection H as <-. apply stepa_send. exact E.
  - destruct (Z.eqb_spec x ANY) as [->|Hx].
    + unfold take. destruct (ch s src r t) as [|m q] eqn:Ec; [discriminate|]. intros H. injection H as <-.
      eapply stepa_any; eassumption.
    + destruct (Z.leb_spec 0 x) as [H0|H0]; [|discriminate].
      unfold take. destruct (ch s x r t) as [|m q] eqn:Ec; [discriminate|]. intros H. injection H as <-.
      eapply stepa_recv; eassumption.
Qed.

Theorem exec_sound : forall l s s', exec l s = Some s' -> run_a (length l) s s'.
Proof.
  induction l as [|c l IH]; intros s s' H; cbn [exec length] in *.
  - injection H as <-. constructor.
  - destruct (exec_step s c) as [s1|] eqn:E; [|discriminate].
    econstructor; [apply (exec_step_sound _ _ _ E)|apply IH; exact H].
Qed.

(* COMPLETENESS: every step of the relation is executed by some choice (pointwise: the resulting programs and
   channels are those of the relation's successor state) *)
Lemma exec_step_complete s r s' : step_a s r s' -> exists src, exec_step s (r, src) = Some s'.
Proof.
  intros H. inversion H as [? ? d t m k P|? ? src t k m q S P C|? ? src t k m q P C]; subst.
  - exists 0. unfold exec_step. rewrite P. reflexivity.
  - exists 0. unfold exec_step. rewrite P.
    destruct (Z.eqb_spec src ANY) as [E|_]; [unfold ANY in E; lia|].
    destruct (Z.leb_spec 0 src); [|lia]. unfold take. rewrite C. reflexivity.
  - exists src. unfold exec_step. rewrite P. rewrite Z.eqb_refl. unfold take. rewrite C. reflexivity.
Qed.

(* ---- enabledness, decided over a finite set of ranks and sources ----------------------------------------------- *)
(* the choices of rank r that exec_step accepts, with sources drawn from `srcs` *)
Definition enabled_of (s : gs) (srcs : list Z) (r : Z) : list choice :=
  match pr s r with
  | Do (Send _ _ _) _ => [(r, 0)]
  | Do (Recv x t) _ =>
    if x =? ANY then map (fun a => (r, a)) (filter (fun a => match ch s a r t with [] => false | _ => true end) srcs)
    else if 0 <=? x then (match ch s x r t with [] => [] | _ => [(r, x)] end) else []
  | _ => []
  end.
Definition enabled (s : gs) (rs : list Z) : list choice := flat_map (enabled_of s rs) rs.

Lemma enabled_sound s rs c : In c (enabled s rs) -> exists s', exec_step s c = Some s'.
Proof.
  unfold enabled. rewrite in_flat_map. intros [r [_ Hc]]. unfold enabled_of in Hc.
  destruct (pr s r) as [o|[d t m|x t|kd rt cb] k] eqn:E; try contradiction.
  - destruct Hc as [<-|[]]. unfold exec_step. rewrite E. eauto.
  - destruct (Z.eqb_spec x ANY) as [->|Hx].
    + apply in_map_iff in Hc. destruct Hc as [a [<- Ha]]. apply filter_In in Ha. destruct Ha as [_ Ha].
      unfold exec_step. rewrite E, Z.eqb_refl. unfold take. destruct (ch s a r t); [discriminate|eauto].
    + destruct (0 <=? x) eqn:E0; [|contradiction]. destruct (ch s x r t) as [|m q] eqn:Ec; [contradiction|].
      destruct Hc as [<-|[]]. unfold exec_step. rewrite E. destruct (Z.eqb_spec x ANY); [contradiction|]. rewrite E0.
      unfold take. rewrite Ec. eauto.
Qed.
