(* Frame and scheduling lemmas on top of MPI/Sem.v: running the sends / receives of one rank inside an arbitrary
   global state, running one communication window of a whole group of ranks (all sends of all members, then all
   receives), and the consequences of the confluence theorem for a system that has ONE terminating schedule.
   Everything is stated pointwise (forall r, pr s' r = ...; forall a d t, ch s' a d t = ...), so this file adds no
   axiom of its own; Sem.v's gs_eq (functional extensionality) is only used through `confluence`. *)
From Coq Require Import ZArith Lia List Bool ZifyBool FinFun.
From ScV Require Import MPI.Prog MPI.Sem.
Import ListNotations.
Local Open Scope Z_scope.

(* ---- the messages of a send list that go to (d, t), in posting order -------------------------------- *)
Fixpoint sent (l : list (Z * Z * payload)) (d t : Z) : list payload :=
  match l with
  | [] => []
  | (d', t', m) :: r => if (d' =? d) && (t' =? t) then m :: sent r d t else sent r d t
  end.
Definition lookup (l : list (Z * Z * payload)) (d t : Z) : payload := hd [] (sent l d t).
Definition skey (x : Z * Z * payload) : Z * Z := (fst (fst x), snd (fst x)).

Lemma sent_none l d t : (forall m, ~ In (d, t, m) l) -> sent l d t = [].
Proof.
  induction l as [|[[d' t'] m'] l IH]; intros H; cbn [sent]; [reflexivity|].
  destruct ((d' =? d) && (t' =? t)) eqn:E.
  - exfalso. apply (H m'). left. assert (d' = d /\ t' = t) as [-> ->] by lia. reflexivity.
  - apply IH. intros m Hm. apply (H m). right. exact Hm.
Qed.

Lemma sent_one l d t m : NoDup (map skey l) -> In (d, t, m) l -> sent l d t = [m].
Proof.
  induction l as [|[[d' t'] m'] l IH]; intros Hnd Hin; [contradiction|].
  cbn [map] in Hnd. inversion Hnd as [|? ? Hnot Hnd']; subst. cbn [sent].
  destruct Hin as [E|Hin].
  - injection E as -> -> ->. rewrite !Z.eqb_refl. cbn [andb]. f_equal.
    apply sent_none. intros m0 Hm0. apply Hnot. apply in_map_iff. exists (d, t, m0). split; [reflexivity|exact Hm0].
  - destruct ((d' =? d) && (t' =? t)) eqn:E.
    + exfalso. apply Hnot. apply in_map_iff. exists (d, t, m). split; [|exact Hin].
      unfold skey. cbn. assert (d' = d /\ t' = t) as [-> ->] by lia. reflexivity.
    + apply IH; assumption.
Qed.

(* ---- one rank: all sends of a window ------------------------------------------------------------------ *)
Lemma run_do_sends : forall l s r k, pr s r = do_sends l k ->
  exists s', run (length l) s s' /\ pr s' r = k /\ (forall r', r' <> r -> pr s' r' = pr s r') /\
    (forall d t, ch s' r d t = ch s r d t ++ sent l d t) /\
    (forall a d t, a <> r -> ch s' a d t = ch s a d t).
Proof.
  induction l as [|[[d t] m] l IH]; intros s r k H.
  - exists s. cbn in *. repeat split; auto using run_nil. intros. rewrite app_nil_r. reflexivity.
  - cbn [do_sends] in H. unfold send in H.
    pose proof (step_send s r d t m _ H) as Hstep. cbv beta in Hstep.
    set (s1 := mkgs (updp (pr s) r (do_sends l k)) (updc (ch s) r d t (ch s r d t ++ [m]))) in *.
    destruct (IH s1 r k) as [s' [Hrun [Hp [Hpo [Hc Hco]]]]]; [unfold s1; cbn; apply updp_same|].
    exists s'. split; [cbn [length]; econstructor; eauto|]. split; [exact Hp|]. split; [|split].
    + intros r' Hr'. rewrite Hpo by exact Hr'. unfold s1. cbn. apply updp_other. exact Hr'.
    + intros d0 t0. rewrite Hc. unfold s1. cbn [ch sent]. unfold updc. rewrite Z.eqb_refl. cbn [andb].
      destruct ((d0 =? d) && (t0 =? t)) eqn:E1; destruct ((d =? d0) && (t =? t0)) eqn:E2; try lia.
      * assert (d0 = d /\ t0 = t) as [-> ->] by lia. rewrite <- app_assoc. reflexivity.
      * reflexivity.
    + intros a d0 t0 Ha. rewrite Hco by exact Ha. unfold s1. cbn [ch]. apply updc_other.
      intros E. injection E as ? ? ?. contradiction.
Qed.

(* ---- one rank: all receives of a window, each channel holding exactly the expected message ------------ *)
Lemma run_do_recvs (M : Z -> Z -> payload) : forall l acc s r k, pr s r = do_recvs l acc k -> NoDup l ->
  (forall src t, In (src, t) l -> 0 <= src /\ ch s src r t = [M src t]) ->
  exists s', run (length l) s s' /\ pr s' r = k (rev acc ++ map (fun p => M (fst p) (snd p)) l) /\
    (forall r', r' <> r -> pr s' r' = pr s r') /\
    (forall a t, In (a, t) l -> ch s' a r t = []) /\
    (forall a d t, ~ (d = r /\ In (a, t) l) -> ch s' a d t = ch s a d t).
Proof.
  induction l as [|[src t] l IH]; intros acc s r k H Hnd Hch.
  - exists s. cbn in *. rewrite app_nil_r. repeat split; auto using run_nil. intros ? ? [].
  - cbn [do_recvs] in H. unfold recv in H.
    destruct (Hch src t (or_introl eq_refl)) as [Hsrc Hc0].
    pose proof (step_recv s r src t _ (M src t) [] Hsrc H Hc0) as Hstep. cbv beta in Hstep. cbn [tl] in Hstep.
    set (s1 := mkgs (updp (pr s) r (do_recvs l (M src t :: acc) k)) (updc (ch s) src r t [])) in *.
    inversion Hnd as [|? ? Hnot Hnd']; subst.
    destruct (IH (M src t :: acc) s1 r k) as [s' [Hrun [Hp [Hpo [Hc Hco]]]]].
    + unfold s1. cbn. apply updp_same.
    + exact Hnd'.
    + intros a t0 Hin. destruct (Hch a t0 (or_intror Hin)) as [Ha Hca]. split; [exact Ha|].
      unfold s1. cbn [ch]. rewrite updc_other; [exact Hca|].
      intros E. injection E as -> ->. contradiction.
    + exists s'. split; [cbn [length]; econstructor; eauto|]. split; [|split; [|split]].
      * rewrite Hp. cbn [rev map fst snd]. rewrite <- app_assoc. reflexivity.
      * intros r' Hr'. rewrite Hpo by exact Hr'. unfold s1. cbn. apply updp_other. exact Hr'.
      * intros a t0 [E|Hin].
        -- injection E as -> ->. rewrite Hco by (intros [_ Hx]; contradiction). unfold s1. cbn [ch]. apply updc_same.
        -- apply Hc. exact Hin.
      * intros a d t0 Hn. rewrite Hco by (intros [-> Hx]; apply Hn; split; [reflexivity|right; exact Hx]).
        unfold s1. cbn [ch]. apply updc_other. intros E. injection E as -> -> ->. apply Hn. split; [reflexivity|left; reflexivity].
Qed.

(* ---- single blocking send / receive of one rank inside an arbitrary global state ---------------------- *)
Lemma run_send1 s r d t m k : pr s r = send d t m k ->
  exists s', run 1 s s' /\ pr s' r = k /\ (forall r', r' <> r -> pr s' r' = pr s r') /\
    ch s' r d t = ch s r d t ++ [m] /\
    (forall a b t', (a, b, t') <> (r, d, t) -> ch s' a b t' = ch s a b t').
Proof.
  intros H. unfold send in H. pose proof (step_send s r d t m _ H) as Hstep. cbv beta in Hstep.
  eexists. split; [econstructor; [exact Hstep|apply run_nil]|]. cbn [pr ch].
  split; [apply updp_same|]. split; [intros r' Hr'; apply updp_other; exact Hr'|].
  split; [apply updc_same|]. intros a b t' Hn. apply updc_other. exact Hn.
Qed.

Lemma run_recv1 s r src t k msg q : pr s r = recv src t k -> 0 <= src -> ch s src r t = msg :: q ->
  exists s', run 1 s s' /\ pr s' r = k msg /\ (forall r', r' <> r -> pr s' r' = pr s r') /\
    ch s' src r t = q /\
    (forall a b t', (a, b, t') <> (src, r, t) -> ch s' a b t' = ch s a b t').
Proof.
  intros H Hsrc Hc. unfold recv in H. pose proof (step_recv s r src t _ msg q Hsrc H Hc) as Hstep.
  cbv beta in Hstep. cbn [tl] in Hstep.
  eexists. split; [econstructor; [exact Hstep|apply run_nil]|]. cbn [pr ch].
  split; [apply updp_same|]. split; [intros r' Hr'; apply updp_other; exact Hr'|].
  split; [apply updc_same|]. intros a b t' Hn. apply updc_other. exact Hn.
Qed.

(* ---- a group of ranks: everybody's sends ------------------------------------------------------------- *)
Lemma sends_all (Sd : Z -> list (Z * Z * payload)) (K1 : Z -> prog) : forall rs, NoDup rs -> forall s,
  (forall r, In r rs -> pr s r = do_sends (Sd r) (K1 r)) ->
  exists n s', run n s s' /\ (forall r, In r rs -> pr s' r = K1 r) /\ (forall r, ~ In r rs -> pr s' r = pr s r) /\
    (forall a d t, In a rs -> ch s' a d t = ch s a d t ++ sent (Sd a) d t) /\
    (forall a d t, ~ In a rs -> ch s' a d t = ch s a d t).
Proof.
  induction rs as [|r rs IH]; intros Hnd s Hp.
  - exists 0%nat, s. repeat split; auto using run_nil; cbn; intros; contradiction.
  - inversion Hnd as [|? ? Hnot Hnd']; subst.
    destruct (run_do_sends (Sd r) s r (K1 r) (Hp r (or_introl eq_refl))) as [s1 [Hrun1 [Hp1 [Hpo1 [Hc1 Hco1]]]]].
    destruct (IH Hnd' s1) as [n [s' [Hrun [Hpi [Hpo [Hc Hco]]]]]].
    { intros r' Hr'. rewrite Hpo1 by (intros ->; contradiction). apply Hp. right. exact Hr'. }
    exists (length (Sd r) + n)%nat, s'. split; [eapply run_app; eauto|]. split; [|split; [|split]].
    + intros r' [<-|Hr']; [|apply Hpi; exact Hr']. rewrite Hpo by exact Hnot. exact Hp1.
    + intros r' Hn. rewrite Hpo by (intros Hx; apply Hn; right; exact Hx). apply Hpo1. intros ->. apply Hn. left. reflexivity.
    + intros a d t [<-|Ha].
      * rewrite Hco by exact Hnot. apply Hc1.
      * rewrite Hc by exact Ha. rewrite Hco1 by (intros ->; contradiction). reflexivity.
    + intros a d t Hn. rewrite Hco by (intros Hx; apply Hn; right; exact Hx). apply Hco1. intros ->. apply Hn. left. reflexivity.
Qed.

(* ---- a group of ranks: everybody's receives ---------------------------------------------------------- *)
Lemma recvs_all (Rc : Z -> list (Z * Z)) (K : Z -> list payload -> prog) (M : Z -> Z -> Z -> payload) :
  forall rs, NoDup rs -> forall s,
  (forall r, In r rs -> pr s r = do_recvs (Rc r) [] (K r)) ->
  (forall r, In r rs -> NoDup (Rc r)) ->
  (forall r src t, In r rs -> In (src, t) (Rc r) -> 0 <= src /\ ch s src r t = [M src r t]) ->
  exists n s', run n s s' /\
    (forall r, In r rs -> pr s' r = K r (map (fun p => M (fst p) r (snd p)) (Rc r))) /\
    (forall r, ~ In r rs -> pr s' r = pr s r) /\
    (forall a d t, In d rs -> In (a, t) (Rc d) -> ch s' a d t = []) /\
    (forall a d t, ~ (In d rs /\ In (a, t) (Rc d)) -> ch s' a d t = ch s a d t).
Proof.
  induction rs as [|r rs IH]; intros Hnd s Hp Hndr Hch.
  - exists 0%nat, s. repeat split; auto using run_nil; cbn; intros; contradiction.
  - inversion Hnd as [|? ? Hnot Hnd']; subst.
    destruct (run_do_recvs (fun src t => M src r t) (Rc r) [] s r (K r) (Hp r (or_introl eq_refl)) (Hndr r (or_introl eq_refl)))
      as [s1 [Hrun1 [Hp1 [Hpo1 [Hc1 Hco1]]]]].
    { intros src t Hin. apply Hch; [left; reflexivity|exact Hin]. }
    cbn [rev app] in Hp1.
    destruct (IH Hnd' s1) as [n [s' [Hrun [Hpi [Hpo [Hc Hco]]]]]].
    { intros r' Hr'. rewrite Hpo1 by (intros ->; contradiction). apply Hp. right. exact Hr'. }
    { intros r' Hr'. apply Hndr. right. exact Hr'. }
    { intros r' src t Hr' Hin. destruct (Hch r' src t (or_intror Hr') Hin) as [H0 Hc0]. split; [exact H0|].
      rewrite Hco1; [exact Hc0|]. intros [-> _]. contradiction. }
    exists (length (Rc r) + n)%nat, s'. split; [eapply run_app; eauto|]. split; [|split; [|split]].
    + intros r' [<-|Hr']; [|apply Hpi; exact Hr']. rewrite Hpo by exact Hnot. exact Hp1.
    + intros r' Hn. rewrite Hpo by (intros Hx; apply Hn; right; exact Hx). apply Hpo1. intros ->. apply Hn. left. reflexivity.
    + intros a d t [<-|Hd] Hin.
      * rewrite Hco by (intros [Hx _]; contradiction). apply Hc1. exact Hin.
      * apply Hc; assumption.
    + intros a d t Hn. rewrite Hco by (intros [Hx Hy]; apply Hn; split; [right; exact Hx|exact Hy]).
      apply Hco1. intros [-> Hy]. apply Hn. split; [left; reflexivity|exact Hy].
Qed.

(* ---- one communication window of a group: all sends, then all receives ------------------------------
   Hypotheses: the members are at a `phase`; channels between members are empty; per member the send keys
   (destination, tag) and the receive keys (source, tag) are duplicate free; all peers are members; and
   sends and receives match.  Then the group can run the window to its end: each receive obtains the message
   of the matching send, nobody else moves and every channel is as before (nothing is left unreceived). *)
Lemma window_run (Sd : Z -> list (Z * Z * payload)) (Rc : Z -> list (Z * Z)) (K : Z -> list payload -> prog) :
  forall rs s, NoDup rs ->
  (forall r, In r rs -> pr s r = phase (Sd r) (Rc r) (K r)) ->
  (forall a d t, In a rs -> In d rs -> ch s a d t = []) ->
  (forall r, In r rs -> NoDup (map skey (Sd r))) ->
  (forall r, In r rs -> NoDup (Rc r)) ->
  (forall r d t m, In r rs -> In (d, t, m) (Sd r) -> In d rs) ->
  (forall d src t, In d rs -> In (src, t) (Rc d) -> In src rs /\ 0 <= src) ->
  (forall r d t, In r rs -> In d rs -> ((exists m, In (d, t, m) (Sd r)) <-> In (r, t) (Rc d))) ->
  exists n s', run n s s' /\
    (forall r, In r rs -> pr s' r = K r (map (fun p => lookup (Sd (fst p)) r (snd p)) (Rc r))) /\
    (forall r, ~ In r rs -> pr s' r = pr s r) /\
    (forall a d t, ch s' a d t = ch s a d t).
Proof.
  intros rs s Hnd Hp Hemp Hsk Hrk Hsin Hrin Hmatch.
  destruct (sends_all Sd (fun r => do_recvs (Rc r) [] (K r)) rs Hnd s) as [n1 [s1 [Hrun1 [Hp1 [Hpo1 [Hc1 Hco1]]]]]].
  { intros r Hr. apply Hp. exact Hr. }
  assert (Hmsg : forall r src t, In r rs -> In (src, t) (Rc r) ->
                 0 <= src /\ ch s1 src r t = [lookup (Sd src) r t]).
  { intros r src t Hr Hin. destruct (Hrin r src t Hr Hin) as [Hsrc H0]. split; [exact H0|].
    rewrite Hc1 by exact Hsrc. rewrite Hemp by assumption. cbn [app].
    destruct (proj2 (Hmatch src r t Hsrc Hr) Hin) as [m Hm].
    unfold lookup. rewrite (sent_one _ _ _ m (Hsk src Hsrc) Hm). reflexivity. }
  destruct (recvs_all Rc K (fun src r t => lookup (Sd src) r t) rs Hnd s1 Hp1 Hrk Hmsg)
    as [n2 [s2 [Hrun2 [Hp2 [Hpo2 [Hc2 Hco2]]]]]].
  exists (n1 + n2)%nat, s2. split; [eapply run_app; eauto|]. split; [exact Hp2|]. split.
  - intros r Hn. rewrite Hpo2 by exact Hn. apply Hpo1. exact Hn.
  - intros a d t.
    destruct (in_dec Z.eq_dec d rs) as [Hd|Hd].
    + destruct (in_dec (fun x y : Z * Z => ltac:(decide equality; apply Z.eq_dec) : {x = y} + {x <> y}) (a, t) (Rc d)) as [Hin|Hin].
      * rewrite Hc2 by assumption. destruct (Hrin d a t Hd Hin) as [Ha _]. symmetry. apply Hemp; assumption.
      * rewrite Hco2 by (intros [_ Hx]; contradiction).
        destruct (in_dec Z.eq_dec a rs) as [Ha|Ha].
        -- rewrite Hc1 by exact Ha. rewrite sent_none; [apply app_nil_r|].
           intros m Hm. apply Hin. apply (Hmatch a d t Ha Hd). exists m. exact Hm.
        -- apply Hco1. exact Ha.
    + rewrite Hco2 by (intros [Hx _]; contradiction).
      destruct (in_dec Z.eq_dec a rs) as [Ha|Ha].
      * rewrite Hc1 by exact Ha. rewrite sent_none; [apply app_nil_r|].
        intros m Hm. apply Hd. eapply Hsin; eauto.
      * apply Hco1. exact Ha.
Qed.

(* ---- contiguous groups of ranks ------------------------------------------------------------------------ *)
Definition zrange (base g : Z) : list Z := map (fun j => base + Z.of_nat j) (seq 0 (Z.to_nat g)).
Lemma In_zrange base g r : In r (zrange base g) <-> base <= r < base + g.
Proof.
  unfold zrange. rewrite in_map_iff. split.
  - intros [j [<- Hj]]. apply in_seq in Hj. lia.
  - intros H. exists (Z.to_nat (r - base)). split; [lia|]. apply in_seq. lia.
Qed.
Lemma NoDup_zrange base g : NoDup (zrange base g).
Proof.
  unfold zrange. apply FinFun.Injective_map_NoDup; [|apply seq_NoDup]. intros x y H. lia.
Qed.

(* ---- what ONE terminating schedule gives for ALL schedules (confluence of Sem.v) ---------------------- *)
Definition terminal_for (s0 f : gs) (n : nat) : Prop :=
  forall m s', run m s0 s' ->
    (m <= n)%nat /\ run (n - m) s' f /\                       (* every partial schedule is completed to f in n - m steps *)
    (final s' -> s' = f /\ m = n) /\                          (* every complete schedule ends in f *)
    (final s' \/ exists r s'', step s' r s'').                (* no reachable state is stuck *)

Lemma one_schedule_all_schedules s0 f n : run n s0 f -> final f -> terminal_for s0 f n.
Proof.
  intros Hrun Hfin m s' Hm.
  destruct (confluence m n s0 f s' Hrun Hfin Hm) as [Hle Hr].
  split; [exact Hle|]. split; [exact Hr|]. split.
  - intros Hf'. exact (same_final n s0 f m s' Hrun Hfin Hm Hf').
  - exact (never_stuck n s0 f m s' Hrun Hfin Hm).
Qed.
